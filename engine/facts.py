"""Fact extraction (runs the factgen rustc driver over /repo) and the in-memory fact model.

Nothing here executes saphyr code: the driver stops after analysis (`cargo check`) and dumps
the type-checked MIR (opt-level 0), ADTs, impls and traits of the two library crates.
"""
import fcntl
import hashlib
import json
import os
import shutil
import subprocess
import sys
import time

VERIF = os.path.dirname(os.path.dirname(os.path.abspath(__file__)))
REPO = os.environ.get("VERIF_REPO", "/repo")
CACHE = os.path.join(VERIF, ".cache")
DRIVER = os.path.join(VERIF, "factgen", "target", "release", "factgen")

CONFIGS = {
    # name -> (cargo args, extra RUSTFLAGS)
    "default": (["-p", "saphyr-parser", "-p", "saphyr"], ""),
    "noenc": (["-p", "saphyr-parser", "-p", "saphyr", "--no-default-features"], ""),
    "debug_prints": (["-p", "saphyr-parser", "-p", "saphyr", "--features", "saphyr-parser/debug_prints"], ""),
    "release_arith": (["-p", "saphyr-parser", "-p", "saphyr"],
                      "-C overflow-checks=off -C debug-assertions=off"),
}


def nightly_sysroot():
    return subprocess.check_output(["rustc", "+nightly", "--print", "sysroot"], text=True).strip()


def tree_hash(repo):
    h = hashlib.sha256()
    files = []
    for root, dirs, fs in os.walk(repo):
        dirs[:] = sorted(d for d in dirs if d not in ("target", ".git"))
        for f in sorted(fs):
            if f.endswith(".rs") or f in ("Cargo.toml", "Cargo.lock"):
                files.append(os.path.join(root, f))
    for p in files:
        h.update(os.path.relpath(p, repo).encode())
        h.update(b"\0")
        with open(p, "rb") as fh:
            h.update(fh.read())
        h.update(b"\0")
    with open(DRIVER, "rb") as fh:
        h.update(hashlib.sha256(fh.read()).digest())
    return h.hexdigest()[:24]


def extract(repo=None, config="default", quiet=True):
    """Returns the directory holding <crate>.json for the given tree/config (cached by content)."""
    repo = repo or REPO
    if not os.path.exists(DRIVER):
        raise SystemExit("factgen driver missing: run ./verif setup")
    os.makedirs(CACHE, exist_ok=True)
    key = tree_hash(repo) + "-" + config
    out = os.path.join(CACHE, "facts", key)
    done = os.path.join(out, ".done")
    if os.path.exists(done):
        return out
    lock = open(os.path.join(CACHE, "lock-" + key), "w")
    fcntl.flock(lock, fcntl.LOCK_EX)
    try:
        if os.path.exists(done):
            return out
        t0 = time.time()
        tmp_out = out + ".tmp%d" % os.getpid()
        shutil.rmtree(tmp_out, ignore_errors=True)
        os.makedirs(tmp_out)
        target = os.path.join(CACHE, "target-%s-%d" % (config, os.getpid()))
        shutil.rmtree(target, ignore_errors=True)
        args, flags = CONFIGS[config]
        env = dict(os.environ)
        env["LD_LIBRARY_PATH"] = nightly_sysroot() + "/lib:" + env.get("LD_LIBRARY_PATH", "")
        env["RUSTFLAGS"] = ("-Zmir-opt-level=0 -Awarnings " + flags).strip()
        env["RUSTC_WORKSPACE_WRAPPER"] = DRIVER
        env["CARGO_TARGET_DIR"] = target
        env["CARGO_NET_OFFLINE"] = "true"
        env["FACTGEN_OUT"] = tmp_out
        env.pop("RUSTC_WRAPPER", None)
        try:
            p = subprocess.run(["cargo", "+nightly", "check", "--offline", "--lib"] + args,
                               cwd=repo, env=env, stdout=subprocess.PIPE, stderr=subprocess.STDOUT, text=True)
        finally:
            shutil.rmtree(target, ignore_errors=True)
        if p.returncode != 0:
            shutil.rmtree(tmp_out, ignore_errors=True)
            sys.stderr.write(p.stdout[-4000:])
            raise ExtractionError("cargo check failed for config %s (tree does not build?)" % config)
        want = ["saphyr_parser.json"] + (["saphyr.json"] if config != "debug_prints" else [])
        for w in want:
            if not os.path.exists(os.path.join(tmp_out, w)):
                raise ExtractionError("fact file %s was not produced (driver skipped?)" % w)
        with open(os.path.join(tmp_out, ".done"), "w") as fh:
            fh.write("%.1f" % (time.time() - t0))
        shutil.rmtree(out, ignore_errors=True)
        os.rename(tmp_out, out)
        _prune_cache(keep=out)
        if not quiet:
            print("facts extracted in %.1fs -> %s" % (time.time() - t0, out))
        return out
    finally:
        fcntl.flock(lock, fcntl.LOCK_UN)
        lock.close()


def _prune_cache(keep, max_entries=160, min_age_s=3600):
    """drop the oldest cached fact sets; never one younger than an hour (a concurrent check may be loading it)"""
    d = os.path.join(CACHE, "facts")
    now = time.time()

    def mtime(p):
        try:
            return os.path.getmtime(p)
        except OSError:          # removed by a concurrent check
            return None
    try:
        ents = [(mtime(os.path.join(d, e)), os.path.join(d, e)) for e in os.listdir(d) if ".tmp" not in e]
    except OSError:
        return
    ents = sorted((m, p) for m, p in ents if m is not None)
    while len(ents) > max_entries:
        m, v = ents.pop(0)
        if v != keep and now - m > min_age_s:
            shutil.rmtree(v, ignore_errors=True)


class ExtractionError(Exception):
    pass


# ----------------------------------------------------------------------------------------------
# fact model


def is_local(op):
    """operand is copy/move of a bare local -> local index, else None"""
    for k in ("copy", "move"):
        if k in op:
            p = op[k]
            if not p["p"]:
                return p["l"]
    return None


def op_place(op):
    for k in ("copy", "move"):
        if k in op:
            return op[k]
    return None


def op_const(op):
    return op.get("const")


def const_value(c):
    """python value of a constant dict (int/bool/char/str) or None"""
    if c is None:
        return None
    for k in ("int", "bool", "str", "bits"):
        if k in c:
            return c[k]
    if "char" in c:
        return ("char", c["char"])
    return None


def place_str(p, fn=None):
    s = "_%d" % p["l"]
    if fn is not None:
        n = fn.locals[p["l"]].get("name")
        if n:
            s = "%s/*_%d*/" % (n, p["l"])
    for e in p["p"]:
        k = e["k"]
        if k == "deref":
            s = "(*%s)" % s
        elif k == "field":
            s = "%s.%s" % (s, e["n"])
        elif k == "downcast":
            s = "(%s as %s)" % (s, e["v"])
        elif k == "index":
            s = "%s[_%d]" % (s, e["l"])
        elif k == "cindex":
            s = "%s[%s%d]" % (s, "-" if e["from_end"] else "", e["off"])
        else:
            s = "%s.<%s>" % (s, k)
    return s


def const_str(c):
    if "fn" in c:
        return "fn " + c["fn"]["key"]
    v = const_value(c)
    if isinstance(v, tuple):
        cp = v[1]
        return "'%s'" % (chr(cp) if 0x20 < cp < 0x7f else "\\u{%x}" % cp)
    if v is not None:
        return "const %r" % (v,)
    if c.get("zst"):
        return "const <zst %s>" % c["ty"]
    return "const ?%s" % c.get("opaque", c.get("ty"))


def op_str(op, fn=None):
    if "copy" in op:
        return place_str(op["copy"], fn)
    if "move" in op:
        return "move " + place_str(op["move"], fn)
    if "const" in op:
        return const_str(op["const"])
    return str(op)


def rv_str(rv, fn=None):
    k = rv["k"]
    if k == "use":
        return op_str(rv["a"], fn)
    if k == "ref":
        return ("&mut " if rv["mut"] else "&") + place_str(rv["p"], fn)
    if k == "bin":
        return "%s(%s, %s)" % (rv["op"], op_str(rv["a"], fn), op_str(rv["b"], fn))
    if k == "un":
        return "%s(%s)" % (rv["op"], op_str(rv["a"], fn))
    if k == "cast":
        return "%s as %s [%s]" % (op_str(rv["a"], fn), rv["ty"], rv["kind"])
    if k == "discr":
        return "discriminant(%s)" % place_str(rv["p"], fn)
    if k == "agg":
        ops = ", ".join(op_str(o, fn) for o in rv["ops"])
        if rv["agg"] == "adt":
            return "%s::%s{%s}" % (rv["adt"], rv["variant"], ops)
        if rv["agg"] == "closure":
            return "closure %s{%s}" % (rv["def"], ops)
        return "%s(%s)" % (rv["agg"], ops)
    if k == "copyforderef":
        return "deref_copy " + place_str(rv["p"], fn)
    if k == "rawptr":
        return "&raw " + place_str(rv["p"], fn)
    return str(rv)


def term_str(t, fn=None):
    k = t["k"]
    if k == "goto":
        return "goto bb%d" % t["t"]
    if k == "switch":
        arms = ", ".join("%s: bb%d" % (v, b) for v, b in zip(t["vals"], t["targets"]))
        return "switchInt(%s) [%s, otherwise: bb%d]" % (op_str(t["discr"], fn), arms, t["otherwise"])
    if k == "call":
        f = t["f"]
        if "fn" in f:
            name = f["fn"]["key"]
            if f["fn"].get("resolved"):
                name += " => " + f["fn"]["resolved"]
        else:
            name = "(*%s)" % op_str(f.get("ptr", {}), fn)
        return "%s = %s(%s) -> %s" % (place_str(t["dest"], fn), name, ", ".join(op_str(a, fn) for a in t["args"]),
                                      "bb%d" % t["t"] if t["t"] is not None else "!")
    if k == "assert":
        return "assert(%s == %s, %s) -> bb%d" % (op_str(t["cond"], fn), t["expected"], t["msg"], t["t"])
    if k == "drop":
        return "drop(%s) -> bb%d" % (place_str(t["p"], fn), t["t"])
    return k


class Fn:
    def __init__(self, d, crate):
        self.d = d
        self.crate = crate
        self.key = d["key"]
        self.path = d["path"]
        self.name = d["name"]
        self.kind = d["kind"]
        self.locals = d["locals"]
        self.arg_count = d["arg_count"]
        self.blocks = d["blocks"]
        self.span = d["span"]["at"]
        self.file = self.span.split(":")[0]
        self._succ = None
        self._pred = None
        self._dom = None

    def __repr__(self):
        return "<Fn %s>" % self.key

    @property
    def is_pub(self):
        return self.d.get("pub", False)

    def local_name(self, l):
        return self.locals[l].get("name")

    def local_ty(self, l):
        return self.locals[l]["ty"]

    # ---- CFG (cleanup blocks and unwind edges excluded) ----
    def succs(self, b):
        if self._succ is None:
            self._succ = [self._succs(i) for i in range(len(self.blocks))]
        return self._succ[b]

    def _succs(self, b):
        t = self.blocks[b]["term"]
        k = t["k"]
        if k == "goto":
            return [t["t"]]
        if k == "switch":
            out = []
            for x in t["targets"] + [t["otherwise"]]:
                if x not in out:
                    out.append(x)
            return out
        if k in ("call", "assert", "drop"):
            return [t["t"]] if t["t"] is not None else []
        return []

    def preds(self, b):
        if self._pred is None:
            self._pred = [[] for _ in self.blocks]
            for i in range(len(self.blocks)):
                if self.blocks[i]["cleanup"]:
                    continue
                for s in self.succs(i):
                    self._pred[s].append(i)
        return self._pred[b]

    def reachable(self):
        seen = {0}
        st = [0]
        while st:
            b = st.pop()
            for s in self.succs(b):
                if s not in seen:
                    seen.add(s)
                    st.append(s)
        return seen

    def rpo(self):
        seen = set()
        order = []

        def dfs(b):
            stack = [(b, iter(self.succs(b)))]
            seen.add(b)
            while stack:
                n, it = stack[-1]
                adv = False
                for s in it:
                    if s not in seen:
                        seen.add(s)
                        stack.append((s, iter(self.succs(s))))
                        adv = True
                        break
                if not adv:
                    order.append(n)
                    stack.pop()
        dfs(0)
        order.reverse()
        return order

    def dominators(self):
        """dict block -> set of dominators (including itself), reachable non-cleanup blocks only"""
        if self._dom is not None:
            return self._dom
        order = self.rpo()
        allb = set(order)
        dom = {b: set(allb) for b in order}
        dom[0] = {0}
        changed = True
        while changed:
            changed = False
            for b in order:
                if b == 0:
                    continue
                ps = [p for p in self.preds(b) if p in dom]
                if not ps:
                    continue
                new = set.intersection(*[dom[p] for p in ps]) | {b}
                if new != dom[b]:
                    dom[b] = new
                    changed = True
        self._dom = dom
        return dom

    def back_edges(self):
        dom = self.dominators()
        out = []
        for b in dom:
            for s in self.succs(b):
                if s in dom[b]:
                    out.append((b, s))
        return out

    def natural_loops(self):
        """list of (header, set(blocks)) merged per header"""
        loops = {}
        for (b, h) in self.back_edges():
            body = {h, b}
            st = [b]
            while st:
                n = st.pop()
                if n == h:
                    continue
                for p in self.preds(n):
                    if p not in body:
                        body.add(p)
                        st.append(p)
            loops.setdefault(h, set()).update(body)
        return sorted(loops.items())

    def calls(self):
        """yields (bb, term, callee_key, fnref or None) for every non-cleanup call"""
        for i, b in enumerate(self.blocks):
            if b["cleanup"]:
                continue
            t = b["term"]
            if t["k"] == "call":
                f = t["f"].get("fn")
                yield i, t, (f["key"] if f else None), f

    def line_of(self, sp):
        return sp["call"] if sp.get("exp") else sp["at"]

    def dump(self, out=sys.stdout):
        out.write("fn %s  [%s]\n" % (self.key, self.span))
        for i, l in enumerate(self.locals):
            out.write("  let _%d: %s%s\n" % (i, l["ty"], "  // " + l["name"] if l.get("name") else ""))
        for i, b in enumerate(self.blocks):
            out.write(" bb%d%s:\n" % (i, " (cleanup)" if b["cleanup"] else ""))
            for s in b["stmts"]:
                if s["k"] == "assign":
                    out.write("    %s = %s   // %s\n" % (place_str(s["lhs"], self), rv_str(s["rv"], self), s["sp"]["at"].split("/")[-1]))
                elif s["k"] == "setdiscr":
                    out.write("    discriminant(%s) = %d\n" % (place_str(s["lhs"], self), s["v"]))
            t = b["term"]
            sp = t.get("sp", {}).get("at", "")
            out.write("    %s   // %s\n" % (term_str(t, self), sp.split("/")[-1]))


class Crate:
    def __init__(self, d):
        self.d = d
        self.name = d["crate"]
        self.fns = {}
        for f in d["functions"]:
            fn = Fn(f, self.name)
            if fn.key in self.fns:
                raise ExtractionError("duplicate function key " + fn.key)
            self.fns[fn.key] = fn
        self.adts = {a["path"]: a for a in d["adts"]}
        self.impls = d["impls"]
        self.traits = {t["path"]: t for t in d["traits"]}
        self.files = d["files"]
        self.cfg = d["cfg"]


class Facts:
    def __init__(self, directory):
        self.dir = directory
        self.crates = {}
        for fn in sorted(os.listdir(directory)):
            if fn.endswith(".json"):
                with open(os.path.join(directory, fn)) as fh:
                    c = Crate(json.load(fh))
                self.crates[c.name] = c
        self.fns = {}
        self.adts = {}
        self.impls = []
        self.traits = {}
        for c in self.crates.values():
            self.fns.update(c.fns)
            self.adts.update(c.adts)
            self.impls.extend(c.impls)
            self.traits.update(c.traits)
        # undo "extract a private helper" relative to the reference function inventory (engine/normalize.py)
        from . import normalize
        self.inlined = normalize.normalise(self, Fn)

    def fn(self, key):
        f = self.fns.get(key)
        if f is None:
            raise MissingAnchor("function %s not found in the facts" % key)
        return f

    def find(self, suffix):
        return [f for k, f in self.fns.items() if k.endswith(suffix)]

    def adt(self, path):
        a = self.adts.get(path)
        if a is None:
            raise MissingAnchor("type %s not found in the facts" % path)
        return a

    def closures_of(self, key):
        return [f for f in self.fns.values() if f.d.get("closure_of") == key or key in f.d.get("closure_of_also", ())]

    def callers_of(self, key):
        out = []
        for f in self.fns.values():
            for bb, t, ck, fr in f.calls():
                if ck == key or (fr and fr.get("resolved") == key):
                    out.append((f, bb, t))
        return out


class MissingAnchor(Exception):
    pass


def load(repo=None, config="default"):
    if config == "default":
        config = os.environ.get("VERIF_CONFIG", "default")
    return Facts(extract(repo, config))
