"""Shared names and helpers for the rule packs."""
import os
import sys

from engine import facts, cfg, callgraph, report

SCANNER = "saphyr_parser::scanner::Scanner"
PARSER = "saphyr_parser::parser::Parser"
INPUT = "saphyr_parser::input::Input"
LOADER = "saphyr::loader::YamlLoader"
STRINPUT = "saphyr_parser::input::str::StrInput"
BUFINPUT = "saphyr_parser::input::buffered::BufferedInput"

NODE_TYPES = ["saphyr::yaml::Yaml", "saphyr::yaml_owned::YamlOwned",
              "saphyr::annotated::marked_yaml::MarkedYaml", "saphyr::annotated::marked_yaml_owned::MarkedYamlOwned"]
DATA_TYPES = ["saphyr::yaml::Yaml", "saphyr::yaml_owned::YamlOwned",
              "saphyr::annotated::yaml_data::YamlData", "saphyr::annotated::yaml_data_owned::YamlDataOwned"]

RUSTC_TRUST = "rustc's type checking, trait resolution and MIR construction (nightly 1.97, -Zmir-opt-level=0) as dumped by factgen"


def site(fn, sp):
    if sp is None:
        return "%s (%s)" % (fn.key, fn.span)
    at = sp["call"] if sp.get("exp") and not sp["at"].endswith(".rs") else sp["at"]
    if sp.get("exp"):
        return "%s @ %s (expanded at %s)" % (fn.key, sp["at"], sp["call"])
    return "%s @ %s" % (fn.key, at)


def short(key):
    """drop the crate/module prefix of a function key for messages and finding keys"""
    return key.replace("saphyr_parser::", "").replace("saphyr::", "")


def make_report(pid, tier, level, trusted, explanation):
    return report.Report(pid, tier, level, "./verif check %s --tier %s" % (pid, tier), [RUSTC_TRUST] + list(trusted), explanation)


def callee_is(fr, *names):
    """fr: fn-ref dict; match key or resolved key against any of names (exact)"""
    if fr is None:
        return False
    return fr["key"] in names or fr.get("resolved") in names
