"""Line folding of flow (plain and quoted) scalars as a table (used by C04).

YAML 1.2.2 section 6.5 (line folding) and 7.3.1 (escaped line break in double quotes) say what a run of "blanks, line break, empty lines,
indentation" between two pieces of content contributes to the scalar:
    no line break in the run                          -> the blanks, verbatim
    one line break, no empty lines                    -> one space            (b-as-space)
    one line break followed by n >= 1 empty lines     -> n line feeds         (b-l-trimmed: first break discarded)
    escaped line break followed by n >= 0 empty lines -> n line feeds         (the escaped break itself is not content)
and blanks next to a break are dropped.  The scanner implements this twice (scan_flow_scalar, scan_plain_scalar) with three scratch
buffers and a flag.  The rules here infer the buffers' roles from how they are written, turn the three regions that touch them into path
tables (engine E7) and compare each table with the specification above on every feasible combination of (flag, buffer empty?).
"""
import itertools
from .common import *
from engine import e7

FUNCS = [SCANNER + "::scan_flow_scalar", SCANNER + "::scan_plain_scalar"]


def _dom_order(f, bb):
    """dominators of bb, nearest first"""
    D = f.dominators()
    ds = [d for d in D.get(bb, ()) if d != bb]
    return sorted(ds, key=lambda d: -len(D.get(d, ())))


def _flag_switch_above(f, bb, flag=None):
    """nearest dominating two-way switch on a plain boolean variable/field (not a call result) that decides whether bb runs:
    returns (switch block, flag expr, side) with side True/False, or None"""
    for d in _dom_order(f, bb):
        sw = e7.bool_switch(f, d)
        if sw is None or sw[0] != "flag":
            continue
        e = sw[1]
        if not (e[0] in ("phi", "local") or (e[0] == "place" and e[1] == ("param", 1))):
            continue
        if flag is not None and e != flag:
            continue
        if cfg.dominated_by_edge(f, bb, d, sw[2]) and sw[2] != sw[3]:
            return d, e, True
        if cfg.dominated_by_edge(f, bb, d, sw[3]):
            return d, e, False
    return None


def roles(f):
    ops = e7.string_ops(f)
    dests = {b for bb, op, b, arg in ops if op == "push_str"}
    if len(dests) != 1 or None in dests:
        raise facts.MissingAnchor("%s: the output string (single destination of push_str) was not identified: %s" % (short(f.key), dests))
    out = dests.pop()
    brk = [(bb, b) for bb, op, b, arg in ops if b != out and b is not None and (op == "read_break" or (op == "push" and arg == ("char", 10)))]
    lb = tb = flag = None
    s_break = None
    for bb, b in brk:
        r = _flag_switch_above(f, bb)
        if r is None:
            continue
        d, e, side = r
        if flag is None:
            flag = e
        if e != flag:
            raise facts.MissingAnchor("%s: line breaks are stored under two different flags" % short(f.key))
        if side:
            tb = b
        else:
            lb = b
            s_break = d
    srcs = {arg[1] for bb, op, b, arg in ops if op == "push_str"}
    ws = [b for b in srcs if b not in (lb, tb)]
    if lb is None or tb is None or len(ws) != 1 or lb == tb:
        raise facts.MissingAnchor("%s: buffer roles not identified (first break %s, further breaks %s, blanks %s)" % (short(f.key), lb, tb, ws))
    ws = ws[0]
    # flush region: nearest flag switch above every push_str(out, tb)
    cands = None
    for bb, op, b, arg in ops:
        if op == "push_str" and arg[1] == tb:
            c = [d for d in _dom_order(f, bb) if (e7.bool_switch(f, d) or (None,))[0] == "flag" and e7.bool_switch(f, d)[1] == flag]
            cands = c if cands is None else [x for x in cands if x in c]
    if not cands:
        raise facts.MissingAnchor("%s: the region that flushes pending breaks into the scalar was not found" % short(f.key))
    s_flush = cands[0]
    s_blank = None
    for bb, op, b, arg in ops:
        if op == "push" and b == ws and arg == ("cursor",):
            r = _flag_switch_above(f, bb, flag)
            if r:
                s_blank = r[0]
    if s_blank is None:
        raise facts.MissingAnchor("%s: the region that stores pending blanks was not found" % short(f.key))
    return {"out": out, "lb": lb, "tb": tb, "ws": ws, "flag": flag, "flush": s_flush, "break": s_break, "blank": s_blank}


def _assignments(R, feasible_only=True):
    for fl, e_lb, e_tb, e_ws in itertools.product((True, False), repeat=4):
        if feasible_only:
            # pending breaks exist only while the flag is set; pending blanks only while it is not (they are dropped at the first break)
            if not fl and not (e_lb and e_tb):
                continue
            if fl and not e_ws:
                continue
        yield {("flag",): fl, ("empty", R["lb"]): e_lb, ("empty", R["tb"]): e_tb, ("empty", R["ws"]): e_ws}


def _aname(R, a):
    return "flag=%s,first-break=%s,more-breaks=%s,blanks=%s" % tuple(
        ("set" if a[("flag",)] else "clear",) + tuple("none" if a[("empty", R[k])] else "some" for k in ("lb", "tb", "ws")))


def check(rep, F, rule="fold-table"):
    n = 0
    summary = {}
    for key in FUNCS:
        f = F.fn(key)
        R = roles(f)
        nm = short(key).split("::")[-1]
        bufs = [R["lb"], R["tb"], R["ws"]]
        summary[nm] = {k: e7.buf_name(f, R[k]) for k in ("out", "lb", "tb", "ws")}
        summary[nm]["flag"] = cfg.expr_str(R["flag"]) if R["flag"][0] == "place" else (f.local_name(R["flag"][1]) or str(R["flag"]))
        # --- the three buffers start empty: a fresh String, or a clear() that dominates every other use (they may be scanner fields that
        # another scalar left filled)
        opsf = e7.string_ops(f)
        D = f.dominators()
        for role in ("lb", "tb", "ws"):
            b = R[role]
            n += 1
            if b[0] == "local":
                rep.ok(rule, "%s:starts-empty(%s)" % (nm, e7.buf_name(f, b)), "String::new()")
                continue
            uses = [bb for bb, op, bx, arg in opsf if bx == b or (arg and arg[0] == "buf" and arg[1] == b)]
            clears = [bb for bb, op, bx, arg in opsf if bx == b and op == "clear"]
            first = [c for c in clears if all(u == c or c in D.get(u, ()) for u in uses)]
            rep.check(bool(first), rule, "%s:starts-empty(%s)" % (nm, e7.buf_name(f, b)),
                      "the pending-%s buffer is a scanner field and is not cleared before its first use in %s: what the previous scalar left in it "
                      "takes part in this scalar's folding" % ({"lb": "break", "tb": "empty-lines", "ws": "blanks"}[role], nm), site=f.span)
        # --- flush region
        paths = e7.region_paths(f, R["flush"], R["flag"])
        summary[nm]["flush_paths"] = len(paths)
        for a in _assignments(R):
            n += 1
            res = e7.evaluate(paths, bufs, R["out"], a)
            inst = "%s:flush(%s)" % (nm, _aname(R, a))
            if len(res) != 1:
                rep.bad(rule, inst, "the flush region has %d outcomes for this case (expected exactly one)" % len(res), site=f.span)
                continue
            emitted, state, fset, other, end, why = res[0]
            e_lb, e_tb, e_ws = a[("empty", R["lb"])], a[("empty", R["tb"])], a[("empty", R["ws"])]
            if a[("flag",)]:
                want = () if (e_tb and e_lb) else ((("buf", R["tb"], "nonempty"),) if not e_tb else (("char", 32),))
                ok_state = state[R["lb"]] == "empty" and state[R["tb"]] == "empty" and state[R["ws"]] == "empty"
                what = "after a line break the scalar must receive %s and both break buffers must be left empty" % (
                    "nothing" if want == () else ("the pending empty lines" if want[0][0] == "buf" else "one space"))
            else:
                want = () if e_ws else (("buf", R["ws"], "nonempty"),)
                ok_state = state[R["ws"]] == "empty" and state[R["lb"]] == "empty" and state[R["tb"]] == "empty"
                what = "without a line break the pending blanks must be copied verbatim and their buffer left empty"
            ok = emitted == want and ok_state and not other
            rep.check(ok, rule, inst, "line folding differs from YAML 1.2 section 6.5: " + what, site=f.span,
                      detail={"emitted": [_sym(f, x) for x in emitted], "buffers_after": {e7.buf_name(f, b): s for b, s in state.items()},
                              "other_effects": [str(x) for x in other], "region_end": "bb%s (%s)" % (end, why)})
        # --- break region
        paths = e7.region_paths(f, R["break"], R["flag"])
        summary[nm]["break_paths"] = len(paths)
        for a in _assignments(R):
            n += 1
            res = e7.evaluate(paths, bufs, R["out"], a)
            inst = "%s:break(%s)" % (nm, _aname(R, a))
            if len(res) != 1:
                rep.bad(rule, inst, "the line-break region has %d outcomes for this case (expected exactly one)" % len(res), site=f.span)
                continue
            emitted, state, fset, other, end, why = res[0]
            if a[("flag",)]:
                ok = emitted == () and state[R["tb"]] in ("break+", "grown-break") and state[R["lb"]] == ("empty" if a[("empty", R["lb"])] else "nonempty") \
                    and fset in (None, True) and not other
                what = "a further line break must be added to the pending empty lines only"
            else:
                ok = emitted == () and state[R["lb"]] == "break+" and state[R["ws"]] == "empty" and state[R["tb"]] == "empty" and fset is True and not other
                what = "the first line break must drop the pending blanks, be remembered as the first break and set the flag"
            rep.check(ok, rule, inst, "line folding differs from YAML 1.2 section 6.5: " + what, site=f.span,
                      detail={"emitted": [_sym(f, x) for x in emitted], "buffers_after": {e7.buf_name(f, b): s for b, s in state.items()},
                              "flag_set": fset, "other_effects": [str(x) for x in other]})
        # --- blank region
        paths = e7.region_paths(f, R["blank"], R["flag"], transparent=e7.TRANSPARENT + ("Input::peek",))
        summary[nm]["blank_paths"] = len(paths)
        for a in _assignments(R):
            n += 1
            res = e7.evaluate(paths, bufs, R["out"], a)
            inst = "%s:blank(%s)" % (nm, _aname(R, a))
            okall = bool(res)
            det = []
            for emitted, state, fset, other, end, why in res:
                if a[("flag",)]:
                    # blanks after a line break are indentation / trailing blanks of an empty line: dropped
                    ok = emitted == () and not other and fset is None and all(
                        state[b] == ("empty" if a[("empty", b)] else "nonempty") for b in bufs)
                else:
                    ok = emitted == () and not other and fset is None and state[R["ws"]] in ("cursor+", "grown-cursor") \
                        and state[R["lb"]] == "empty" and state[R["tb"]] == "empty"
                okall = okall and ok
                det.append({"buffers_after": {e7.buf_name(f, b): s for b, s in state.items()}, "emitted": [_sym(f, x) for x in emitted],
                            "other_effects": [str(x) for x in other], "flag_set": fset})
            rep.check(okall, rule, inst, "line folding differs from YAML 1.2 section 6.5: a blank before any line break is kept pending (verbatim); "
                      "a blank after a line break is dropped", site=f.span, detail=det)
    rep.extra["folding"] = summary
    return n


def _sym(f, x):
    if x[0] == "buf":
        return e7.buf_name(f, x[1])
    if x[0] == "char":
        return repr(chr(x[1]))
    return x[0]
