"""Self-test "both ways": seeded mutants (unified diffs against /repo) must make the named rule fire.
Each mutant is applied to a scratch copy outside /repo and /verif, facts are re-extracted there, the copy is removed."""
import json
import os
import shutil
import subprocess
import sys
import tempfile
from concurrent.futures import ThreadPoolExecutor

VERIF = os.path.dirname(os.path.dirname(os.path.abspath(__file__)))


def mutants_for(pid):
    d = os.path.join(VERIF, "selftest", pid)
    out = []
    if os.path.isdir(d):
        for f in sorted(os.listdir(d)):
            if f.endswith(".json"):
                with open(os.path.join(d, f)) as fh:
                    m = json.load(fh)
                m["name"] = f[:-5]
                m["diff"] = os.path.join(d, f[:-5] + ".diff")
                out.append(m)
    return out


def run_mutant(pid, m, repo="/repo", keep=False):
    tmp = tempfile.mkdtemp(prefix="verif-selftest-")
    try:
        scratch = os.path.join(tmp, "repo")
        subprocess.run(["rsync", "-a", "--exclude", "target", "--exclude", ".git", repo + "/", scratch + "/"], check=True)
        p = subprocess.run(["patch", "-p1", "-s", "--no-backup-if-mismatch", "-i", m["diff"]], cwd=scratch, stdout=subprocess.PIPE, stderr=subprocess.STDOUT, text=True)
        if p.returncode != 0:
            return {"name": m["name"], "status": "stale", "detail": p.stdout[-500:]}
        evd = os.path.join(tmp, "ev")
        os.makedirs(evd)
        env = dict(os.environ)
        env["VERIF_REPO"] = scratch
        env["VERIF_EVIDENCE_DIR"] = evd
        env["VERIF_NO_SELFTEST"] = "1"
        q = subprocess.run([os.path.join(VERIF, "verif"), "check", pid, "--tier", "quick"], env=env, stdout=subprocess.PIPE, stderr=subprocess.STDOUT, text=True)
        if not os.path.exists(os.path.join(evd, pid + ".json")):
            # the check died before writing evidence (e.g. a cache entry vanished under it): once more
            q = subprocess.run([os.path.join(VERIF, "verif"), "check", pid, "--tier", "quick"], env=env, stdout=subprocess.PIPE, stderr=subprocess.STDOUT, text=True)
        keys = []
        try:
            with open(os.path.join(evd, pid + ".json")) as fh:
                ev = json.load(fh)
            keys = ev["coverage"].get("new_violations", [])
        except Exception:
            pass
        if "tree does not build" in q.stdout or "cargo check failed" in q.stdout:
            return {"name": m["name"], "status": "does-not-compile", "detail": q.stdout[-3000:]}
        want = m.get("expect", [])
        missing = [w for w in want if not any(w in k for k in keys)]
        status = "fired" if (q.returncode == 1 and not missing) else "missed"
        return {"name": m["name"], "status": status, "keys": keys, "missing": missing, "exit": q.returncode}
    finally:
        if not keep:
            shutil.rmtree(tmp, ignore_errors=True)


def run(pid, rep=None, jobs=8):
    ms = mutants_for(pid)
    results = []
    with ThreadPoolExecutor(max_workers=jobs) as ex:
        for r in ex.map(lambda m: run_mutant(pid, m), ms):
            results.append(r)
    if rep is not None:
        for r in results:
            if r["status"] == "fired":
                rep.ok("selftest-mutant", r["name"], {"reported": r["keys"][:4]})
            elif r["status"] == "stale":
                rep.notes.append("selftest mutant %s is stale (context no longer applies)" % r["name"])
                rep.extra.setdefault("selftest_stale", []).append(r["name"])
            else:
                rep.bad("selftest-mutant", r["name"], "the checker did not report the seeded mutant (%s): the rule is broken or too weak" % r["status"],
                        detail=r)
        rep.extra["selftest"] = {"mutants": len(ms), "fired": sum(1 for r in results if r["status"] == "fired")}
    return results


if __name__ == "__main__":
    pid = sys.argv[1]
    only = sys.argv[2] if len(sys.argv) > 2 else None
    ms = [m for m in mutants_for(pid) if only is None or only in m["name"]]
    with ThreadPoolExecutor(max_workers=8) as ex:
        for r in ex.map(lambda m: run_mutant(pid, m), ms):
            print(r["status"].upper(), pid, r["name"], r.get("missing") or "", (r.get("keys") or [])[:3] if r["status"] != "fired" else "", r.get("detail", "")[-2500:] if r["status"] in ("stale", "does-not-compile") else "")
