#!/usr/bin/env python3
"""maintenance helper: apply a patch to a scratch copy of /repo's working tree (never to /repo itself), run the given checks against the
copy with the evidence redirected, remove the copy.
usage: tools/try_patch.py <patch> <ID> [<ID> ...]"""
import subprocess, os, sys, tempfile, shutil
patch, pids = os.path.abspath(sys.argv[1]), sys.argv[2:]
scratch = tempfile.mkdtemp(prefix="try-patch-")
subprocess.run("rsync -a --exclude target --exclude .git /repo/ %s/ && cd %s && patch -p1 -s < %s" % (scratch, scratch, patch), shell=True, check=True)
try:
    for pid in pids:
        evd = tempfile.mkdtemp()
        p = subprocess.run("./verif check %s" % pid, shell=True, cwd="/verif", env=dict(os.environ, VERIF_EVIDENCE_DIR=evd, VERIF_REPO=scratch),
                           stdout=subprocess.PIPE, text=True)
        print(pid, "exit", p.returncode)
        for l in p.stdout.splitlines():
            if l.startswith("  rule"):
                print("   ", l.strip()[:260])
        shutil.rmtree(evd, ignore_errors=True)
finally:
    shutil.rmtree(scratch, ignore_errors=True)
